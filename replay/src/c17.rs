//! Function-level small-scope searches that attach concrete inputs to failed obligations of
//! C17 (validate_merge), C18 (reset_remove) and C07 (derived contexts) on Orswot / MVReg / VClock.
use crate::report::Report;
use crate::c04::{gen_programs, state, O};
use crdts::orswot::Op;
use crdts::{CmRDT, CvRDT, ResetRemove, VClock, Dot, MVReg};
use std::collections::BTreeMap;

fn clock_of(v: &[u64]) -> VClock<u8> { let mut c = VClock::new(); for (a, n) in v.iter().enumerate() { if *n > 0 { c.apply(Dot::new((a + 1) as u8, *n)); } } c }

/// all states the generator reaches in `depth` steps (deduplicated by their Debug text)
fn states(depth: usize) -> Vec<(O, String)> {
    let mut seen = std::collections::BTreeSet::new();
    let mut out = vec![];
    gen_programs(depth, &mut |reps: &Vec<O>, _k: &Vec<Vec<Op<u8, u8>>>, desc: &String| {
        for o in reps { let key = format!("{:?}", o); if seen.insert(key) { out.push((o.clone(), desc.clone())); } }
    });
    out
}

/// C17: validate_merge(a, b) is Err exactly when some dot is a current witness of one member in a and of a DIFFERENT member in b
pub fn search_c17(r: &mut Report, tier: &str) {
    let depth = if tier == "thorough" { 5 } else { 4 };
    r.target = "Orswot::validate_merge: Err <=> some dot witnesses different members on the two sides (C17)".into();
    r.bound = format!("all ordered pairs of Orswot states reached by <= {} generator steps over 2 replicas (members {{0,1}}, actors {{1,2}}; add_all spends one dot on two members), plus each state against a replica that re-used an actor's dot for another member", depth);
    let sts = states(depth);
    let flagged = |a: &O, b: &O| -> bool {
        let (_, ea) = state(a); let (_, eb) = state(b);
        ea.iter().any(|(m, ca)| eb.iter().any(|(m2, cb)| m != m2 && ca.iter().any(|(act, n)| cb.get(act) == Some(n))))
    };
    for (a, da) in &sts { for (b, db) in &sts {
        let want = flagged(a, b);
        let got = a.validate_merge(b).is_err();
        r.case("orswot.validate_merge_verdict", got == want, &|| format!("[{}] vs [{}]", da, db), &|| format!("got Err={} want Err={} a={:?} b={:?}", got, want, a, b));
        if r.failures > 0 { return; }
    } }
    // double spending: two replicas use the same actor for different members
    for (a, da) in sts.iter().take(400) {
        for m in 0..2u8 {
            let mut x = a.clone(); let mut y = a.clone();
            let ox = x.add(m, x.read().derive_add_ctx(1)); x.apply(ox);
            let oy = y.add(1 - m, y.read().derive_add_ctx(1)); y.apply(oy);
            let want = flagged(&x, &y);
            let got = x.validate_merge(&y).is_err();
            r.case("orswot.validate_merge_double_spend", got == want, &|| format!("[{}] then actor 1 adds {} on one clone and {} on the other", da, m, 1 - m), &|| format!("got Err={} want Err={}", got, want));
            if r.failures > 0 { return; }
        }
    }
    search_c17_map(r, tier);
    if r.failures == 0 { search_c17_map_orswot(r, tier); }
}

/// Map<u8, Orswot>: the NESTED verdict.  Correct use (actors 2 and 3, one replica each) must be accepted in both directions at
/// every step; then actor 1 is used at both replicas for different members under one key: where the two versions of that entry are
/// concurrent the misuse must be flagged in both directions.  (Where the entry clocks are comparable the crate does not look at
/// the nested values at all -- recorded finding F17b -- so those pairs are left out by construction, not by relaxing the oracle.)
fn search_c17_map_orswot(r: &mut Report, tier: &str) {
    use crdts::{Map, Orswot};
    type MO = Map<u8, Orswot<u8, u8>, u8>;
    let n = if tier == "thorough" { 40000 } else { 4000 };
    r.bound.push_str(&format!("; Map<u8, Orswot>: {} fixed-seed random programs of 8 steps over 2 replicas (nested add / nested rm / key rm, causal op exchange), validate_merge in both directions after every step, then one actor used at both replicas under one key (pairs with concurrent entry clocks)", n));
    let mut s: u64 = 0x1234_5678_9abc_def1;
    let mut lcg = move || { s = s.wrapping_mul(6364136223846793005).wrapping_add(1442695040888963407); s >> 33 };
    for _ in 0..n {
        let mut reps: Vec<MO> = vec![MO::new(), MO::new()];
        let mut logs: Vec<Vec<crdts::map::Op<u8, Orswot<u8, u8>, u8>>> = vec![vec![], vec![]];
        let mut got_from = [0usize; 2];
        let mut desc = String::new();
        for _ in 0..8 {
            let i = (lcg() % 2) as usize; let actor = (i + 2) as u8;
            let k = (lcg() % 2) as u8; let m = (lcg() % 3) as u8;
            match lcg() % 6 {
                0 | 1 => { let op = reps[i].update(k, reps[i].read_ctx().derive_add_ctx(actor), |set, c| set.add(m, c)); reps[i].apply(op.clone()); logs[i].push(op); desc.push_str(&format!(" r{}:add({},{})", i, k, m)); }
                2 => { let op = reps[i].update(k, reps[i].read_ctx().derive_add_ctx(actor), |set, _c| set.rm(m, set.contains(&m).derive_rm_ctx())); reps[i].apply(op.clone()); logs[i].push(op); desc.push_str(&format!(" r{}:nrm({},{})", i, k, m)); }
                3 => { let op = reps[i].rm(k, reps[i].get(&k).derive_rm_ctx()); reps[i].apply(op.clone()); logs[i].push(op); desc.push_str(&format!(" r{}:rmkey({})", i, k)); }
                _ => { let j = 1 - i; if got_from[i] < logs[j].len() { let op = logs[j][got_from[i]].clone(); got_from[i] += 1; reps[i].apply(op.clone()); logs[i].push(op); desc.push_str(&format!(" r{}<-next(r{})", i, j)); } }
            }
            let (v01, v10) = (reps[0].validate_merge(&reps[1]), reps[1].validate_merge(&reps[0]));
            r.case("map_orswot.correct_use_accepted", v01.is_ok() && v10.is_ok(), &|| desc.clone(), &|| format!("validate_merge: {:?} / {:?}", v01, v10));
            if r.failures > 0 { return; }
        }
        for k in 0..2u8 {
            let (mut x, mut y) = (reps[0].clone(), reps[1].clone());
            let ox = x.update(k, x.read_ctx().derive_add_ctx(1), |set, c| set.add(10, c)); x.apply(ox);
            let oy = y.update(k, y.read_ctx().derive_add_ctx(1), |set, c| set.add(11, c)); y.apply(oy);
            let (ex, ey) = (x.get(&k).rm_clock, y.get(&k).rm_clock);
            let same_dot = ex.get(&1) == ey.get(&1);
            if !same_dot || !ex.concurrent(&ey) { continue; }
            let (vxy, vyx) = (x.validate_merge(&y), y.validate_merge(&x));
            r.case("map_orswot.nested_double_spend_flagged", vxy.is_err() && vyx.is_err(), &|| format!("{} then actor 1 adds 10 under key {} at r0 and 11 under key {} at r1", desc, k, k), &|| format!("dot 1.{} witnesses member 10 at r0 and member 11 at r1 (entry clocks {:?} / {:?} concurrent); validate_merge: {:?} / {:?}", ex.get(&1), ex, ey, vxy, vyx));
            if r.failures > 0 { return; }
        }
    }
}

/// C17 for Map<u8, MVReg>: Err exactly when some dot witnesses DIFFERENT keys on the two sides (MVReg values never flag)
pub fn search_c17_map(r: &mut Report, tier: &str) {
    let depth = if tier == "thorough" { 4 } else { 3 };
    let sts = crate::c05::map_states(depth);
    r.bound.push_str(&format!("; Map<u8, MVReg>: all ordered pairs of states reached by <= {} steps, plus clones that spend one actor's next dot on different keys", depth));
    type MM = crdts::Map<u8, MVReg<u8, u8>, u8>;
    let ec = |m: &MM, k: u8| -> BTreeMap<u8, u64> { m.get(&k).rm_clock.dots.clone() };
    let flagged = |a: &MM, b: &MM| -> bool {
        (0..3u8).any(|k| (0..3u8).any(|k2| k != k2 && ec(a, k).iter().any(|(act, n)| ec(b, k2).get(act) == Some(n))))
    };
    for (a, da) in &sts { for (b, db) in &sts {
        let want = flagged(a, b); let got = a.validate_merge(b).is_err();
        r.case("map.validate_merge_verdict", got == want, &|| format!("[{}] vs [{}]", da, db), &|| format!("got Err={} want Err={}", got, want));
        if r.failures > 0 { return; }
    } }
    for (a, da) in sts.iter().take(600) {
        for k in 0..2u8 {
            let mut x = a.clone(); let mut y = a.clone();
            let ox = x.update(k, x.read_ctx().derive_add_ctx(1), |reg, c| reg.write(7, c)); x.apply(ox);
            let oy = y.update(1 - k, y.read_ctx().derive_add_ctx(1), |reg, c| reg.write(8, c)); y.apply(oy);
            for (p, q) in [(&x, &y), (&y, &x)] {
                let want = flagged(p, q); let got = p.validate_merge(q).is_err();
                r.case("map.validate_merge_double_spend", got == want, &|| format!("[{}] then actor 1 updates key {} on one clone and key {} on the other", da, k, 1 - k), &|| format!("got Err={} want Err={}", got, want));
            }
            if r.failures > 0 { return; }
        }
    }
}

/// C18: reset_remove(c) forgets exactly the dots c covers: witnesses, membership, replica clock; nothing else
pub fn search_c18(r: &mut Report, tier: &str) {
    let depth = if tier == "thorough" { 5 } else { 4 };
    r.target = "Orswot / VClock / MVReg / GCounter / PNCounter / Map::reset_remove(c): exactly the dots covered by c are forgotten (C18)".into();
    r.bound = format!("all Orswot states reached by <= {} generator steps x all clocks over actors {{1,2}} with counters 0..=3; reset twice == reset once; reset by c1 then c2 == reset by their join (Orswot, MVReg, and Map<u8,MVReg> states reached by <= 4 (quick) / 5 (thorough) steps incl. pending key removes); MVReg: 3 writes x same clocks", depth);
    let sts = states(depth);
    let sub = |x: &BTreeMap<u8, u64>, c: &VClock<u8>| -> BTreeMap<u8, u64> { x.iter().filter(|(a, n)| **n > c.get(a)).map(|(a, n)| (*a, *n)).collect() };
    for (o, d) in &sts {
        for c1 in 0..4u64 { for c2 in 0..4u64 {
            let c = clock_of(&[c1, c2]);
            let (cl, ent) = state(o);
            let mut o2 = o.clone();
            o2.reset_remove(&c);
            let (cl2, ent2) = state(&o2);
            let want_cl = sub(&cl, &c);
            let want_ent: BTreeMap<u8, BTreeMap<u8, u64>> = ent.iter().map(|(m, w)| (*m, sub(w, &c))).filter(|(_, w)| !w.is_empty()).collect();
            r.case("orswot.reset_remove_exact", cl2 == want_cl && ent2 == want_ent, &|| format!("[{}] reset_remove({:?})", d, c), &|| format!("got clock {:?} entries {:?}; want {:?} {:?}", cl2, ent2, want_cl, want_ent));
            let mut o3 = o2.clone(); o3.reset_remove(&c);
            r.case("orswot.reset_remove_idempotent", o3 == o2, &|| format!("[{}] reset_remove({:?}) twice", d, c), &|| format!("{:?} != {:?}", o3, o2));
            // pending removes are trimmed by the same clock: a state whose pending removes are all covered by its clock after
            // the reset must equal the state obtained by resetting a replica that never held them ... observable through ==:
            // resetting with the empty clock changes nothing
            if c1 == 0 && c2 == 0 { r.case("orswot.reset_remove_empty_is_noop", o2 == *o, &|| format!("[{}] reset_remove({{}})", d), &|| format!("{:?} != {:?}", o2, o)); }
            if r.failures > 0 { return; }
        } }
    }
    // VClock
    for x1 in 0..4u64 { for x2 in 0..4u64 { for c1 in 0..4u64 { for c2 in 0..4u64 {
        let mut x = clock_of(&[x1, x2]); let c = clock_of(&[c1, c2]);
        x.reset_remove(&c);
        let want = clock_of(&[if x1 > c1 { x1 } else { 0 }, if x2 > c2 { x2 } else { 0 }]);
        r.case("vclock.reset_remove_exact", x == want, &|| format!("{:?} reset_remove {:?}", [x1, x2], [c1, c2]), &|| format!("got {:?}", x));
    } } } }
    // reset_remove composes: forgetting c1 and then c2 is forgetting their join (structurally: pending removes and nested
    // values included) -- Orswot, MVReg and Map<u8, MVReg> states
    for (o, d) in sts.iter() {
        for c1 in 0..3u64 { for c2 in 0..3u64 { for e1 in 0..3u64 { for e2 in 0..3u64 {
            let (ca, cb) = (clock_of(&[c1, c2]), clock_of(&[e1, e2]));
            let mut j = ca.clone(); j.merge(cb.clone());
            let mut x = o.clone(); x.reset_remove(&ca); x.reset_remove(&cb);
            let mut y = o.clone(); y.reset_remove(&j);
            r.case("orswot.reset_remove_composes", x == y, &|| format!("[{}] reset_remove({:?}) then ({:?}) vs join", d, ca, cb), &|| format!("{:?} != {:?}", x, y));
            if r.failures > 0 { return; }
        } } } }
    }
    // "the replica's own full clock empties it": a clock covering every dot the state mentions (pending removes included) leaves
    // nothing behind -- no element, no clock entry, no pending remove
    let top = clock_of(&[99, 99, 99, 99]);
    for (o, d) in sts.iter() {
        let mut t = o.clone(); t.reset_remove(&top);
        r.case("orswot.reset_remove_everything", t == O::new(), &|| format!("[{}] reset_remove(top)", d), &|| format!("left over: {:?}", t));
        if r.failures > 0 { return; }
    }
    for (m, d) in crate::c05::map_states(if tier == "thorough" { 5 } else { 4 }) {
        let mut t = m.clone(); t.reset_remove(&top);
        r.case("map.reset_remove_everything", t == crdts::Map::new(), &|| format!("[{}] reset_remove(top)", d), &|| format!("left over: {:?}", t));
        if r.failures > 0 { return; }
    }
    for (m, d) in crate::c05::map_states(if tier == "thorough" { 5 } else { 4 }) {
        for c1 in 0..3u64 { for c2 in 0..3u64 { for e1 in 0..3u64 { for e2 in 0..3u64 {
            let (ca, cb) = (clock_of(&[c1, c2]), clock_of(&[e1, e2]));
            let mut j = ca.clone(); j.merge(cb.clone());
            let mut x = m.clone(); x.reset_remove(&ca); x.reset_remove(&cb);
            let mut y = m.clone(); y.reset_remove(&j);
            r.case("map.reset_remove_composes", x == y, &|| format!("[{}] reset_remove({:?}) then ({:?}) vs join", d, ca, cb), &|| format!("{:?} != {:?}", x, y));
            let mut z = m.clone(); z.reset_remove(&ca);
            let cl: BTreeMap<u8, u64> = m.read_ctx().add_clock.dots.iter().filter(|(a, n)| **n > ca.get(a)).map(|(a, n)| (*a, *n)).collect();
            let keys_ok = (0..3u8).all(|k| { let (g0, g1) = (m.get(&k), z.get(&k)); let want: BTreeMap<u8, u64> = g0.rm_clock.dots.iter().filter(|(a, n)| **n > ca.get(a)).map(|(a, n)| (*a, *n)).collect(); g1.rm_clock.dots == want && g1.val.is_some() == (g0.val.is_some() && !want.is_empty()) });
            r.case("map.reset_remove_exact_keys", z.read_ctx().add_clock.dots == cl && keys_ok, &|| format!("[{}] reset_remove({:?})", d, ca), &|| format!("{:?}", z));
            if r.failures > 0 { return; }
        } } } }
    }
    // GCounter / PNCounter: the totals of exactly the actors whose counter is covered by c are forgotten
    for x1 in 0..4u64 { for x2 in 0..4u64 { for y1 in 0..3u64 { for c1 in 0..4u64 { for c2 in 0..4u64 {
        let c = clock_of(&[c1, c2]);
        let mut g = crdts::GCounter::<u8>::new();
        if x1 > 0 { g.apply(Dot::new(1u8, x1)); } if x2 > 0 { g.apply(Dot::new(2u8, x2)); }
        let mut p = crdts::PNCounter::<u8>::new();
        if x1 > 0 { let o = p.inc_many(1u8, x1); p.apply(o); } if x2 > 0 { let o = p.inc_many(2u8, x2); p.apply(o); } if y1 > 0 { let o = p.dec_many(1u8, y1); p.apply(o); }
        g.reset_remove(&c); p.reset_remove(&c);
        let keep = |n: u64, cn: u64| -> i64 { if n > cn { n as i64 } else { 0 } };
        let want_g = keep(x1, c1) + keep(x2, c2);
        let want_p = keep(x1, c1) + keep(x2, c2) - keep(y1, c1);
        r.case("gcounter.reset_remove_exact", g.read() == num::BigUint::from(want_g as u64), &|| format!("counts {:?} reset_remove {:?}", [x1, x2], [c1, c2]), &|| format!("read {}", g.read()));
        r.case("pncounter.reset_remove_exact", p.read() == num::BigInt::from(want_p), &|| format!("inc {:?} dec {:?} reset_remove {:?}", [x1, x2], [y1, 0], [c1, c2]), &|| format!("read {} want {}", p.read(), want_p));
    } } } } }
    // MVReg: a value is forgotten iff its whole context is covered; contexts of survivors are untouched... (value clocks are reduced)
    let mut reg: MVReg<u8, u8> = MVReg::new();
    let w1 = reg.write(1, reg.read().derive_add_ctx(1)); reg.apply(w1);
    let mut other = reg.clone();
    let w2 = reg.write(2, reg.read().derive_add_ctx(1)); reg.apply(w2);
    let w3 = other.write(3, other.read().derive_add_ctx(2)); other.apply(w3.clone()); reg.apply(w3);
    for c1 in 0..4u64 { for c2 in 0..3u64 {
        let c = clock_of(&[c1, c2]);
        let mut r2 = reg.clone(); r2.reset_remove(&c);
        let mut got = r2.read().val; got.sort();
        // values: 2 with context {1:2}, 3 with context {1:1, 2:1}
        let mut want = vec![]; if 2 > c1 { want.push(2u8); } if 1 > c1 || 1 > c2 { want.push(3u8); }
        r.case("mvreg.reset_remove_values", got == want, &|| format!("values {{2:[1:2], 3:[1:1,2:1]}} reset_remove {:?}", [c1, c2]), &|| format!("got {:?} want {:?}", got, want));
        // the contexts of the surviving values are reduced by exactly the covered dots
        let mut want_ctx = VClock::new();
        if 2 > c1 { want_ctx.apply(Dot::new(1u8, 2)); }
        if 1 > c1 { want_ctx.apply(Dot::new(1u8, 1)); }
        if 1 > c2 { want_ctx.apply(Dot::new(2u8, 1)); }
        r.case("mvreg.reset_remove_contexts", r2.read().add_clock == want_ctx, &|| format!("values {{2:[1:2], 3:[1:1,2:1]}} reset_remove {:?}", [c1, c2]), &|| format!("got {:?} want {:?}", r2.read().add_clock, want_ctx));
        for e1 in 0..4u64 { for e2 in 0..3u64 {
            let cb = clock_of(&[e1, e2]); let mut j = c.clone(); j.merge(cb.clone());
            let mut x = reg.clone(); x.reset_remove(&c); x.reset_remove(&cb);
            let mut y = reg.clone(); y.reset_remove(&j);
            r.case("mvreg.reset_remove_composes", x == y, &|| format!("reset_remove {:?} then {:?} vs join", [c1, c2], [e1, e2]), &|| format!("{:?} != {:?}", x, y));
        } }
    } }
}

/// C07: contexts handed out by reads: the add context is the replica clock, the derived dot is the actor's next one, the derived
/// clock is the add clock plus that dot; the remove context of a member is its witness clock
pub fn search_c07(r: &mut Report, tier: &str) {
    let depth = if tier == "thorough" { 5 } else { 4 };
    r.target = "ReadCtx::derive_add_ctx / derive_rm_ctx / split on Orswot reads (C07)".into();
    r.bound = format!("all Orswot states reached by <= {} generator steps x actors {{1,2,3}} x members {{0,1,2}}", depth);
    for (o, d) in &states(depth) {
        let (cl, ent) = state(o);
        for actor in 1..4u8 {
            let ctx = o.read().derive_add_ctx(actor);
            let next = cl.get(&actor).copied().unwrap_or(0) + 1;
            let mut want_clock = cl.clone(); want_clock.insert(actor, next);
            let ok = ctx.dot.actor == actor && ctx.dot.counter == next && ctx.clock.dots == want_clock;
            r.case("orswot.derive_add_ctx", ok, &|| format!("[{}] read().derive_add_ctx({})", d, actor), &|| format!("got dot {:?} clock {:?}; want counter {} clock {:?}", ctx.dot, ctx.clock, next, want_clock));
            for m in 0..3u8 {
                let c = o.contains(&m);
                let ctx2 = c.derive_add_ctx(actor);
                let ok2 = ctx2.dot.counter == next && ctx2.clock.dots == want_clock;
                r.case("orswot.contains_derive_add_ctx", ok2, &|| format!("[{}] contains({}).derive_add_ctx({})", d, m, actor), &|| format!("got dot {:?} clock {:?}", ctx2.dot, ctx2.clock));
                let rm = o.contains(&m).derive_rm_ctx();
                let want_rm = ent.get(&m).cloned().unwrap_or_default();
                r.case("orswot.derive_rm_ctx", rm.clock.dots == want_rm, &|| format!("[{}] contains({}).derive_rm_ctx()", d, m), &|| format!("got {:?} want {:?}", rm.clock, want_rm));
                // split() hands the same two clocks on, together with the value
                let c0 = o.contains(&m);
                let (v, rest) = o.contains(&m).split();
                let ok3 = v == c0.val && rest.add_clock == c0.add_clock && rest.rm_clock == c0.rm_clock
                    && o.contains(&m).split().1.derive_rm_ctx().clock.dots == want_rm && o.contains(&m).split().1.derive_add_ctx(actor).clock.dots == want_clock;
                r.case("readctx.split_keeps_both_clocks", ok3, &|| format!("[{}] contains({}).split()", d, m), &|| format!("split gives add {:?} rm {:?}; read had add {:?} rm {:?}", rest.add_clock, rest.rm_clock, c0.add_clock, c0.rm_clock));
            }
            if r.failures > 0 { return; }
        }
    }
}
