//! C10: small-scope twin of the vector-clock vocabulary, evaluated against the real VClock.
use crate::report::Report;
use crdts::{CmRDT, CvRDT, Dot, ResetRemove, VClock};
use std::cmp::Ordering;

pub const ACTORS: usize = 3;
pub type Arr = [u64; ACTORS];

pub fn mk(a: &Arr) -> VClock<u8> {
    let mut c = VClock::new();
    for (i, n) in a.iter().enumerate() {
        if *n > 0 {
            c.dots.insert(i as u8, *n);
        }
    }
    c
}
pub fn arr(c: &VClock<u8>) -> Option<Arr> {
    // None when the clock stores a zero or an unknown actor
    let mut a = [0u64; ACTORS];
    for (k, v) in c.dots.iter() {
        if *v == 0 || (*k as usize) >= ACTORS { return None; }
        a[*k as usize] = *v;
    }
    Some(a)
}
pub fn all(maxc: u64) -> Vec<Arr> {
    let mut v = Vec::new();
    for a in 0..=maxc { for b in 0..=maxc { for c in 0..=maxc { v.push([a, b, c]); } } }
    v
}
fn le(x: &Arr, y: &Arr) -> bool { (0..ACTORS).all(|i| x[i] <= y[i]) }
fn pcmp(x: &Arr, y: &Arr) -> Option<Ordering> {
    match (le(x, y), le(y, x)) { (true, true) => Some(Ordering::Equal), (false, true) => Some(Ordering::Greater), (true, false) => Some(Ordering::Less), _ => None }
}

pub fn standin_vclock_iter(r: &mut Report) {
    r.target = "VClock::iter (verified against the Map-adapter shim), VClock::into_iter / IntoIter::next (assumed): yield exactly the dots of the clock, each actor once; FromIterator<Dot> for VClock (under contract through the N4 shim over the caller's iterator): pointwise maximum, no zero stored".into();
    r.bound = "all clocks over actors {0,1,2} with counters 0..=3 (64 clocks); all sequences of 3 dots over 3 actors x counters 0..=2 (729)".into();
    for a in all(3) {
        let c = mk(&a);
        let mut seen = [0u64; ACTORS];
        let mut dup = false;
        let mut n = 0;
        for d in c.iter() { if seen[*d.actor as usize] != 0 { dup = true; } seen[*d.actor as usize] = d.counter; n += 1; }
        r.case("iter.exact", !dup && seen == a && n == a.iter().filter(|x| **x > 0).count(), &|| format!("{:?}", a), &|| format!("yielded {:?}", seen));
        let mut seen = [0u64; ACTORS];
        let mut dup = false;
        let mut n = 0;
        for d in c.clone().into_iter() { if seen[d.actor as usize] != 0 { dup = true; } seen[d.actor as usize] = d.counter; n += 1; }
        r.case("into_iter.exact", !dup && seen == a && n == a.iter().filter(|x| **x > 0).count(), &|| format!("{:?}", a), &|| format!("yielded {:?}", seen));
    }
    // FromIterator<Dot> (generic over IntoIterator; verified over the collected items, N4 shim): the pointwise maximum of the dots, zero counters not stored
    let dots: Vec<(u8, u64)> = (0..ACTORS as u8).flat_map(|a| (0..=2u64).map(move |n| (a, n))).collect();
    for i in 0..dots.len() { for j in 0..dots.len() { for k in 0..dots.len() {
        let seq = [dots[i], dots[j], dots[k]];
        let c: VClock<u8> = seq.iter().map(|(a, n)| Dot::new(*a, *n)).collect();
        let mut want = [0u64; ACTORS];
        for (a, n) in seq.iter() { want[*a as usize] = want[*a as usize].max(*n); }
        let stored: Vec<u64> = c.dots.values().copied().collect();
        r.case("from_iter.pointwise_max", arr(&c) == Some(want) && stored.iter().all(|n| *n > 0), &|| format!("{:?}", seq), &|| format!("got {:?}", c));
    } } }
}

pub fn search(r: &mut Report, tier: &str, _seed: u64) {
    let maxc = if tier == "thorough" { 3 } else { 2 };
    r.target = "C10 statements evaluated on the real VClock<u8>".into();
    r.bound = format!("all clocks over actors {{0,1,2}} with counters 0..={} ; all pairs; all dots with counter 0..={} and u64::MAX edge cases", maxc, maxc + 2);
    let cs = all(maxc);
    for x in &cs {
        let cx = mk(x);
        // unary: apply / validate_op / inc / dot / get
        for actor in 0..ACTORS as u8 {
            r.case("get", cx.get(&actor) == x[actor as usize], &|| format!("{:?} actor {}", x, actor), &|| format!("got {}", cx.get(&actor)));
            let d = cx.inc(actor);
            r.case("inc", d.actor == actor && d.counter == x[actor as usize] + 1, &|| format!("{:?} actor {}", x, actor), &|| format!("got {:?}", d));
            for n in 0..=maxc + 2 {
                let dot = Dot::new(actor, n);
                let v = cx.validate_op(&dot);
                let want_ok = n <= x[actor as usize] + 1;
                r.case("validate_op", v.is_ok() == want_ok, &|| format!("{:?} dot {}.{}", x, actor, n), &|| format!("got {:?}", v));
                if let Err(e) = &v {
                    r.case("validate_op.range", e.actor == actor && e.counter_range == ((x[actor as usize] + 1)..n), &|| format!("{:?} dot {}.{}", x, actor, n), &|| format!("got {:?}", e));
                }
                let mut c2 = cx.clone();
                c2.apply(dot);
                let mut want = *x;
                if n > want[actor as usize] { want[actor as usize] = n; }
                r.case("apply", arr(&c2) == Some(want), &|| format!("{:?} dot {}.{}", x, actor, n), &|| format!("got {:?}", c2));
            }
        }
        // edge: counter u64::MAX (the repaired overflow): every dot of that actor is in order
        {
            let mut big = cx.clone();
            big.apply(Dot::new(0u8, u64::MAX));
            let res = std::panic::catch_unwind(|| big.validate_op(&Dot::new(0u8, u64::MAX)).is_ok() && big.validate_op(&Dot::new(0u8, 5)).is_ok());
            r.case("validate_op.max", matches!(res, Ok(true)), &|| format!("{:?} with actor 0 at u64::MAX", x), &|| format!("got {:?}", res.is_ok()));
        }
        r.case("is_empty", cx.is_empty() == (*x == [0; ACTORS]), &|| format!("{:?}", x), &|| String::new());
        for y in &cs {
            let cy = mk(y);
            let inp = || format!("{:?} {:?}", x, y);
            let got = cx.partial_cmp(&cy);
            r.case("partial_cmp", got == pcmp(x, y), &inp, &|| format!("got {:?} want {:?}", got, pcmp(x, y)));
            r.case("concurrent", cx.concurrent(&cy) == pcmp(x, y).is_none(), &inp, &|| String::new());
            r.case("ge", (cx >= cy) == le(y, x), &inp, &|| String::new());
            r.case("lt", (cx < cy) == (le(x, y) && x != y), &inp, &|| String::new());
            let mut m = cx.clone();
            m.merge(cy.clone());
            let mut want = *x;
            for i in 0..ACTORS { want[i] = want[i].max(y[i]); }
            r.case("merge", arr(&m) == Some(want), &inp, &|| format!("got {:?}", m));
            let mut g = cx.clone();
            g.glb(&cy);
            let mut want = *x;
            for i in 0..ACTORS { want[i] = want[i].min(y[i]); }
            r.case("glb", arr(&g) == Some(want), &inp, &|| format!("got {:?}", g));
            let mut s = cx.clone();
            s.reset_remove(&cy);
            let mut want = *x;
            for i in 0..ACTORS { if want[i] <= y[i] { want[i] = 0; } }
            r.case("reset_remove", arr(&s) == Some(want), &inp, &|| format!("got {:?}", s));
            let cw = cx.clone_without(&cy);
            r.case("clone_without", arr(&cw) == Some(want), &inp, &|| format!("got {:?}", cw));
            let it = VClock::intersection(&cx, &cy);
            let mut want = *x;
            for i in 0..ACTORS { if want[i] != y[i] { want[i] = 0; } }
            r.case("intersection", arr(&it) == Some(want), &inp, &|| format!("got {:?}", it));
        }
    }
    // Dot order
    for a in 0..2u8 { for b in 0..2u8 { for n in 0..3u64 { for m in 0..3u64 {
        let (d1, d2) = (Dot::new(a, n), Dot::new(b, m));
        let want = if a == b { Some(n.cmp(&m)) } else { None };
        r.case("dot.partial_cmp", d1.partial_cmp(&d2) == want, &|| format!("{:?} {:?}", d1, d2), &|| String::new());
        r.case("dot.eq", (d1 == d2) == (a == b && n == m) && (d1 != d2) == !(a == b && n == m), &|| format!("{:?} {:?}", d1, d2), &|| String::new());
        let mut d3 = d1.clone(); d3.apply_inc();
        r.case("dot.inc", d1.inc() == Dot::new(a, n + 1) && d3 == Dot::new(a, n + 1), &|| format!("{:?}", d1), &|| format!("inc {:?} apply_inc {:?}", d1.inc(), d3));
    } } } }
    let v: VClock<u8> = Dot::new(1u8, 2).into();
    r.case("from_dot", arr(&v) == Some([0, 2, 0]), &|| "Dot(1,2)".into(), &|| format!("{:?}", v));
    // a zero-counter dot carries no information: the clock built from it is the empty clock (no stored zero)
    let z: VClock<u8> = Dot::new(1u8, 0).into();
    r.case("from_dot_zero", z.is_empty() && z == VClock::new() && z.dots.is_empty(), &|| "VClock::from(Dot(1,0))".into(), &|| format!("{:?}", z));
}
