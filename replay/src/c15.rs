//! MerkleReg (C15, and the MerkleReg rows of C16): bounded stand-ins for what the Verus unit assumes (Node::hash,
//! the read entry points outside the contract) and a small-scope search over DAGs, received subsets, arrival
//! orders with duplicates, and merges, against the denotation taken from the property statement.
use crate::report::Report;
use crdts::merkle_reg::{Hash, MerkleReg, Node};
use crdts::{CmRDT, CvRDT};
use std::collections::{BTreeMap, BTreeSet};

type R = MerkleReg<Vec<u8>>;
type N = Node<Vec<u8>>;

fn lcg(s: &mut u64) -> u64 { *s = s.wrapping_mul(6364136223846793005).wrapping_add(1442695040888963407); *s >> 33 }

/// a DAG of n nodes in topological order: node i picks children among nodes < i according to the bits of `shape`
fn make_dag(n: usize, shape: &mut dyn FnMut(usize, usize) -> bool) -> Vec<N> {
    let mut nodes: Vec<N> = Vec::new();
    for i in 0..n {
        let mut children = BTreeSet::new();
        for j in 0..i { if shape(i, j) { children.insert(nodes[j].hash()); } }
        nodes.push(Node { children, value: vec![i as u8] });
    }
    nodes
}

/// the denotation from the property: (visible hashes, orphan hashes, heads) of a set of received nodes
fn denote(recv: &BTreeMap<Hash, N>) -> (BTreeSet<Hash>, BTreeSet<Hash>, BTreeSet<Hash>) {
    let mut vis: BTreeSet<Hash> = BTreeSet::new();
    loop {
        let mut grew = false;
        for (h, n) in recv { if !vis.contains(h) && n.children.iter().all(|c| vis.contains(c)) { vis.insert(*h); grew = true; } }
        if !grew { break; }
    }
    let orphans: BTreeSet<Hash> = recv.keys().filter(|h| !vis.contains(*h)).copied().collect();
    let heads: BTreeSet<Hash> = vis.iter().filter(|h| !vis.iter().any(|p| recv[p].children.contains(*h))).copied().collect();
    (vis, orphans, heads)
}

fn check_state(r: &mut Report, reg: &R, recv: &BTreeMap<Hash, N>, what: &dyn Fn() -> String) -> bool {
    let (vis, orphans, heads) = denote(recv);
    let got_heads = reg.read().hashes();
    let got_vis: BTreeSet<Hash> = reg.all_nodes().map(|n| n.hash()).collect();
    let ok = got_heads == heads && got_vis == vis && reg.num_nodes() == vis.len() && reg.num_orphans() == orphans.len()
        && recv.iter().all(|(h, n)| reg.node(*h) == Some(n))
        && reg.read().values().count() == heads.len() && reg.read().is_empty() == heads.is_empty();
    r.case("merkle.state_is_denotation_of_received", ok, what, &|| format!("heads {} want {}; visible {} want {}; orphans {} want {}", got_heads.len(), heads.len(), got_vis.len(), vis.len(), reg.num_orphans(), orphans.len()));
    // children / parents / Content iterators (outside the Verus contract)
    let mut ok2 = true;
    for h in recv.keys() {
        let ch = reg.children(*h).hashes();
        let want_ch: BTreeSet<Hash> = if vis.contains(h) { recv[h].children.clone() } else { BTreeSet::new() };
        let pa = reg.parents(*h).hashes();
        let want_pa: BTreeSet<Hash> = vis.iter().filter(|p| recv[*p].children.contains(h)).copied().collect();
        ok2 &= ch == want_ch && pa == want_pa;
    }
    let c = reg.read();
    ok2 &= c.nodes().map(|n| n.hash()).collect::<BTreeSet<_>>() == heads && c.hashes_and_nodes().all(|(h, n)| n.hash() == h && heads.contains(&h));
    r.case("merkle.children_parents_content", ok2, what, &|| "children()/parents()/Content iterators disagree with the visible DAG".into());
    // validate_op: Ok iff every child visible, error names a missing child
    let mut ok3 = true;
    for n in recv.values() {
        let want_ok = n.children.iter().all(|c| vis.contains(c));
        match reg.validate_op(n) {
            Ok(()) => ok3 &= want_ok,
            Err(crdts::merkle_reg::ValidationError::MissingChild(c)) => ok3 &= !want_ok && n.children.contains(&c) && !vis.contains(&c),
        }
    }
    r.case("merkle.validate_op", ok3, what, &|| "validate_op verdict differs from 'all children visible'".into());
    // write(): builds exactly the node it is asked for -- whatever the children are (heads, superseded visible nodes, orphans,
    // hashes this replica has never seen) and without touching the register
    let mut ok4 = true;
    let all: BTreeSet<Hash> = recv.keys().copied().collect();
    let mut unknown = all.clone(); unknown.insert([0xabu8; 32]);
    let mut sets: Vec<BTreeSet<Hash>> = vec![BTreeSet::new(), heads.clone(), vis.clone(), orphans.clone(), all, unknown];
    for n in recv.values() { sets.push(n.children.clone()); }
    let before = reg.clone();
    for cs in sets {
        let n = reg.write(vec![9u8, 9], cs.clone());
        ok4 &= n.children == cs && n.value == vec![9u8, 9];
    }
    ok4 &= *reg == before;
    r.case("merkle.write_is_the_requested_node", ok4, what, &|| "write(value, children) returned a node with other children / value".into());
    ok && ok2 && ok3 && ok4
}

pub fn standin_merkle_hash(r: &mut Report) {
    r.target = "Node::hash (assumed: a function of exactly (children, value), distinct on distinct nodes): equal nodes hash equally, every pair of different nodes in the family hashes differently, the order of child insertion is irrelevant".into();
    r.bound = "all nodes with value in {[], [0], [1], [0,1]} and children any subset of 3 fixed hashes (32 nodes, 1024 pairs)".into();
    let base: Vec<Hash> = (0..3u8).map(|i| Node { children: BTreeSet::new(), value: vec![i, 7] }.hash()).collect();
    let vals: Vec<Vec<u8>> = vec![vec![], vec![0], vec![1], vec![0, 1]];
    let mut nodes: Vec<N> = vec![];
    for v in &vals { for m in 0..8u8 {
        let children: BTreeSet<Hash> = (0..3).filter(|i| m & (1 << i) != 0).map(|i| base[i]).collect();
        nodes.push(Node { children, value: v.clone() });
    } }
    for a in &nodes { for b in &nodes {
        let same = a == b;
        r.case("merkle.hash_is_injective_function", (a.hash() == b.hash()) == same, &|| format!("{:?} vs {:?}", a.value, b.value), &|| "hash equality differs from node equality".into());
    } }
    for a in &nodes {
        let rev: BTreeSet<Hash> = a.children.iter().rev().copied().collect();
        let b = Node { children: rev, value: a.value.clone() };
        r.case("merkle.hash_deterministic", a.hash() == b.hash() && a.hash() == a.clone().hash(), &|| format!("{:?}", a.value), &|| "hash not deterministic".into());
    }
}

fn run_program(r: &mut Report, nodes: &[N], order: &[usize], merge_at: Option<usize>, desc: &dyn Fn() -> String) -> bool {
    // replica a receives `order` (with duplicates allowed in it); replica b receives the reverse; optional merge point
    let mut a = R::new(); let mut ra: BTreeMap<Hash, N> = BTreeMap::new();
    let mut b = R::new(); let mut rb: BTreeMap<Hash, N> = BTreeMap::new();
    let mut ok = true;
    for (step, &i) in order.iter().enumerate() {
        a.apply(nodes[i].clone()); ra.insert(nodes[i].hash(), nodes[i].clone());
        ok &= check_state(r, &a, &ra, &|| format!("{} a after step {}", desc(), step));
        let j = order[order.len() - 1 - step];
        b.apply(nodes[j].clone()); rb.insert(nodes[j].hash(), nodes[j].clone());
        ok &= check_state(r, &b, &rb, &|| format!("{} b after step {}", desc(), step));
        if merge_at == Some(step) {
            let mut m = a.clone(); m.merge(b.clone());
            let mut rm = ra.clone(); for (h, n) in &rb { rm.insert(*h, n.clone()); }
            ok &= check_state(r, &m, &rm, &|| format!("{} merge(a,b) at step {}", desc(), step));
            let mut m2 = b.clone(); m2.merge(a.clone());
            r.case("merkle.merge_commutes", m == m2, &|| format!("{} at step {}", desc(), step), &|| "a.merge(b) != b.merge(a)".into());
            ok &= m == m2;
        }
        if !ok { return false; }
    }
    let sa: BTreeSet<Hash> = ra.keys().copied().collect(); let sb: BTreeSet<Hash> = rb.keys().copied().collect();
    if sa == sb { r.case("merkle.same_nodes_same_register", a == b, desc, &|| "registers with the same received set differ".into()); ok &= a == b; }
    ok
}

fn permutations(v: &mut Vec<usize>, k: usize, out: &mut Vec<Vec<usize>>) {
    if k == v.len() { out.push(v.clone()); return; }
    for i in k..v.len() { v.swap(k, i); permutations(v, k + 1, out); v.swap(k, i); }
}

pub fn search(r: &mut Report, tier: &str, seed: u64) {
    let (n_ex, rounds) = if tier == "thorough" { (5, 300000) } else { (5, 20000) };
    r.target = "MerkleReg (C15; MerkleReg rows of C16): dag/orphans/read/num_* are the denotation of the received node set at every step, for two replicas receiving in opposite orders, with duplicates and merges; same received set => ==".into();
    r.bound = format!("all DAG shapes over <= {} nodes x all arrival permutations (one replica forward, one reversed) x (no merge | merge both ways at the middle step); then {} random programs over DAGs of 6-8 nodes with random subsets, duplicates and merge points (seed {})", n_ex, rounds, seed);
    // exhaustive small: all shapes over n nodes (n*(n-1)/2 edge bits), all permutations
    for n in 1..=n_ex {
        let bits = n * (n - 1) / 2;
        for shape in 0u32..(1u32 << bits) {
            let mut sh = |i: usize, j: usize| { let idx = i * (i - 1) / 2 + j; shape & (1 << idx) != 0 };
            let nodes = make_dag(n, &mut sh);
            let mut perms: Vec<Vec<usize>> = vec![];
            permutations(&mut (0..n).collect(), 0, &mut perms);
            for p in &perms {
                for m in [None, Some(n / 2)] {
                    if !run_program(r, &nodes, p, m, &|| format!("shape {:#b} n={} order {:?} merge {:?}", shape, n, p, m)) { return; }
                }
            }
        }
    }
    let mut s = seed.wrapping_add(0x51ed27);
    for _ in 0..rounds {
        let n = 6 + (lcg(&mut s) % 3) as usize;
        let dens = 1 + lcg(&mut s) % 4;
        let mut sh = |_i: usize, _j: usize| lcg(&mut s) % 5 < dens;
        let nodes = make_dag(n, &mut sh);
        let len = n + (lcg(&mut s) % 4) as usize;
        let order: Vec<usize> = (0..len).map(|_| (lcg(&mut s) as usize) % n).collect();
        let m = if lcg(&mut s) % 2 == 0 { Some((lcg(&mut s) as usize) % len) } else { None };
        if !run_program(r, &nodes, &order, m, &|| format!("random n={} order {:?} merge {:?} children {:?}", n, order, m, nodes.iter().map(|x| x.children.len()).collect::<Vec<_>>())) { return; }
    }
}

pub fn standin_merkle_reads(r: &mut Report) {
    r.target = "MerkleReg::children / parents / all_nodes and Content::values / nodes / hashes_and_nodes (verified against the adapter shims; this exercises the shims on the real crate): agree with the visible DAG".into();
    r.bound = "all DAG shapes over <= 4 nodes, arrival in index order and reversed, every prefix".into();
    for n in 1..=4usize {
        let bits = n * (n - 1) / 2;
        for shape in 0u32..(1u32 << bits) {
            let mut sh = |i: usize, j: usize| { let idx = i * (i - 1) / 2 + j; shape & (1 << idx) != 0 };
            let nodes = make_dag(n, &mut sh);
            let p: Vec<usize> = (0..n).collect();
            let mut sub = Report::new("sub");
            run_program(&mut sub, &nodes, &p, None, &|| format!("shape {:#b} n={}", shape, n));
            if let Some((c, f)) = sub.per_check.get("merkle.children_parents_content") {
                let e = r.per_check.entry("merkle.children_parents_content".into()).or_insert((0, 0));
                e.0 += c; e.1 += f; r.cases += c; r.failures += f;
                if *f > 0 && r.first.is_none() { r.first = sub.first.clone(); }
            }
        }
    }
}
