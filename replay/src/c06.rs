//! MVReg small-scope search: writes derived from reads at 2-3 replicas, delivered in ANY order with
//! duplicates, mixed with merges; the register must show exactly the causally maximal applied writes.
use crate::report::Report;
use crdts::mvreg::{MVReg, Op};
use crdts::{CmRDT, CvRDT, VClock};
use std::collections::BTreeSet;

type R = MVReg<u8, u8>;

fn maximal(known: &[Op<u8, u8>]) -> BTreeSet<(Vec<(u8, u64)>, u8)> {
    let mut out = BTreeSet::new();
    for Op::Put { clock, val } in known {
        if clock.is_empty() { continue; }
        let dominated = known.iter().any(|Op::Put { clock: c2, .. }| clock < c2);
        if !dominated { out.insert((clock.dots.iter().map(|(a, n)| (*a, *n)).collect(), *val)); }
    }
    out
}
fn shown(r: &R) -> (Vec<u8>, VClock<u8>) {
    let rc = r.read();
    let mut v = rc.val.clone(); v.sort();
    (v, rc.add_clock)
}

static STOP: std::sync::atomic::AtomicBool = std::sync::atomic::AtomicBool::new(false);

/// `known` / `spec` hold the writes AS SPECIFIED (value + the context the writer passed in); `all` holds the ops the crate produced
fn rec(reps: Vec<R>, known: Vec<Vec<Op<u8, u8>>>, all: Vec<Op<u8, u8>>, spec: Vec<Op<u8, u8>>, desc: String, depth: usize, next_val: u8, r: &mut Report) {
    for (i, reg) in reps.iter().enumerate() {
        let want = maximal(&known[i]);
        let mut want_vals: Vec<u8> = want.iter().map(|x| x.1).collect(); want_vals.sort();
        let (got, ctx) = shown(reg);
        let mut join = VClock::new();
        for (c, _) in &want { for (a, n) in c { join.apply(crdts::Dot::new(*a, *n)); } }
        let ok = got == want_vals && ctx == join && reg.read_ctx().add_clock == join;
        r.case("mvreg.maximal", ok, &|| format!("{} @r{}", desc, i), &|| format!("read {:?} ctx {:?} want {:?} ctx {:?}", got, ctx, want_vals, join));
        if !ok { STOP.store(true, std::sync::atomic::Ordering::Relaxed); }
    }
    for i in 0..reps.len() { for j in 0..i {
        let ki: BTreeSet<String> = known[i].iter().map(|o| format!("{:?}", o)).collect();
        let kj: BTreeSet<String> = known[j].iter().map(|o| format!("{:?}", o)).collect();
        if ki == kj { r.case("mvreg.same_knowledge_eq", reps[i] == reps[j], &|| desc.clone(), &|| format!("{:?} != {:?}", reps[i], reps[j])); }
        // == is the convergence criterion: it must also tell apart replicas that show different values (both directions of ==)
        let (si, sj) = (shown(&reps[i]).0, shown(&reps[j]).0);
        if si != sj { r.case("mvreg.different_reads_ne", reps[i] != reps[j] && reps[j] != reps[i], &|| desc.clone(), &|| format!("reads {:?} vs {:?} but == holds", si, sj)); }
    } }
    if depth == 0 || STOP.load(std::sync::atomic::Ordering::Relaxed) { return; }
    let n = reps.len();
    for i in 0..n {
        let actor = (i + 1) as u8;
        {   // local write with the context of a read
            let mut r2 = reps.clone(); let mut k2 = known.clone(); let mut a2 = all.clone(); let mut s2 = spec.clone();
            let ctx = r2[i].read().derive_add_ctx(actor);
            let sp = Op::Put { clock: ctx.clock.clone(), val: next_val };
            let op = r2[i].write(next_val, ctx);
            r2[i].apply(op.clone()); k2[i].push(sp.clone()); a2.push(op); s2.push(sp);
            rec(r2, k2, a2, s2, format!("{} r{}:write({})", desc, i, next_val), depth - 1, next_val + 1, r);
        }
        for j in 0..n { if i != j {   // a client (fresh actor) reads at r_j and submits its write through r_i, which may lag behind
            let mut r2 = reps.clone(); let mut k2 = known.clone(); let mut a2 = all.clone(); let mut s2 = spec.clone();
            let ctx = r2[j].read().derive_add_ctx(100 + next_val);
            let sp = Op::Put { clock: ctx.clock.clone(), val: next_val };
            let op = r2[i].write(next_val, ctx);
            r2[i].apply(op.clone()); k2[i].push(sp.clone()); a2.push(op); s2.push(sp);
            rec(r2, k2, a2, s2, format!("{} client reads r{}, r{}:write({})", desc, j, i, next_val), depth - 1, next_val + 1, r);
        } }
        for (j, op) in all.iter().enumerate() {   // deliver anything, any order, duplicates included
            let mut r2 = reps.clone(); let mut k2 = known.clone();
            r2[i].apply(op.clone()); k2[i].push(spec[j].clone());
            rec(r2, k2, all.clone(), spec.clone(), format!("{} r{}<-op{}", desc, i, j), depth - 1, next_val, r);
        }
        for j in 0..n { if i != j {
            let mut r2 = reps.clone(); let mut k2 = known.clone();
            let other = r2[j].clone(); r2[i].merge(other);
            let kj = k2[j].clone(); k2[i].extend(kj);
            rec(r2, k2, all.clone(), spec.clone(), format!("{} r{}<-merge(r{})", desc, i, j), depth - 1, next_val, r);
        } }
    }
}

pub fn search(r: &mut Report, tier: &str, _seed: u64) {
    let d2 = if tier == "thorough" { 6 } else { 5 };
    let d3 = if tier == "thorough" { 5 } else { 4 };
    r.target = "MVReg (C06 and the MVReg rows of C01-C03, C08, C09, C20): read == causally maximal applied writes; equal knowledge => ==".into();
    r.bound = format!("all programs of <= {} steps over 2 replicas and <= {} steps over 3 replicas: writes from read contexts (local, or read at another replica by a client with a fresh actor), delivery of any generated op in any order with duplicates, merges", d2, d3);
    STOP.store(false, std::sync::atomic::Ordering::Relaxed);
    rec(vec![R::new(), R::new()], vec![vec![], vec![]], vec![], vec![], String::new(), d2, 1, r);
    if r.failures == 0 { rec(vec![R::new(), R::new(), R::new()], vec![vec![]; 3], vec![], vec![], String::new(), d3, 1, r); }
}
