use std::collections::BTreeMap;

pub struct Report {
    pub name: String,
    pub bound: String,
    pub target: String,
    pub cases: u64,
    pub failures: u64,
    pub first: Option<(String, String, String)>, // check, input, detail
    pub per_check: BTreeMap<String, (u64, u64)>,
    pub want: Option<(String, String)>,
    pub want_hit: Option<String>,
}

impl Report {
    pub fn new(name: &str) -> Self {
        Report { name: name.to_string(), bound: String::new(), target: String::new(), cases: 0, failures: 0, first: None,
                 per_check: BTreeMap::new(), want: None, want_hit: None }
    }
    /// record one evaluated case; `input`/`detail` are only rendered on failure
    pub fn case(&mut self, check: &str, ok: bool, input: &dyn Fn() -> String, detail: &dyn Fn() -> String) {
        self.cases += 1;
        let e = self.per_check.entry(check.to_string()).or_insert((0, 0));
        e.0 += 1;
        if !ok {
            e.1 += 1;
            self.failures += 1;
            if self.first.is_none() {
                self.first = Some((check.to_string(), input(), detail()));
            }
            if let Some((c, i)) = &self.want {
                if c == check && self.want_hit.is_none() && *i == input() {
                    self.want_hit = Some(detail());
                }
            }
        }
    }
    pub fn to_json(&self) -> String {
        let mut s = String::new();
        s.push_str(&format!("{{\"name\": {:?}, \"for\": {:?}, \"bound\": {:?}, \"cases\": {}, \"failures\": {}, \"exhaustive\": true, ",
                            self.name, self.target, self.bound, self.cases, self.failures));
        s.push_str("\"per_check\": {");
        let mut first = true;
        for (k, (n, f)) in &self.per_check {
            if !first { s.push_str(", "); }
            first = false;
            s.push_str(&format!("{:?}: {{\"cases\": {}, \"failures\": {}}}", k, n, f));
        }
        s.push_str("}, \"first_failure\": ");
        match &self.first {
            None => s.push_str("null"),
            Some((c, i, d)) => s.push_str(&format!("{{\"search\": {:?}, \"check\": {:?}, \"input\": {:?}, \"detail\": {:?}}}", self.name, c, i, d)),
        }
        s.push('}');
        s
    }
}
