//! Recorded known findings (KNOWN_FINDINGS.txt): each id replays one specific history on the
//! real crate and says whether the defect still reproduces.
pub fn run(id: &str) -> String {
    let r: Option<(bool, String)> = match id {
        "F11-incmany-overflow" => Some(crate::c11::finding_incmany_overflow()),
        _ => None,
    };
    match r {
        None => format!("{{\"error\": \"unknown finding {}\"}}", id),
        Some((rep, detail)) => format!("{{\"reproduced\": {}, \"detail\": {:?}}}", rep, detail),
    }
}
