//! Recorded known findings (KNOWN_FINDINGS.txt): each id replays one specific history on the
//! real crate and says whether the defect still reproduces.
pub fn run(id: &str) -> String {
    let r: Option<(bool, String)> = match id {
        "F11-incmany-overflow" => Some(crate::c11::finding_incmany_overflow()),
        "F03-map-merge-deleted-info" => Some(crate::c05::finding_merge_deleted_info()),
        "F01-map-mvreg-foreign-dots" => Some(crate::c05::finding_mvreg_foreign_dots()),
        "F20b-map-mvreg-hidden-clock" => Some(crate::c05::finding_mvreg_hidden_clock()),
        "F01b-map-mvreg-removed-dot-in-value-clock" => Some(crate::c05::finding_mvreg_removed_dot_in_value_clock()),
        "F17b-map-nested-double-spend-unflagged" => Some(crate::c05::finding_nested_double_spend_unflagged()),
        "F16-map-validate-op" => Some(crate::c05::finding_map_validate_op()),
        "F17-addall-validate-merge" => Some(crate::c05::finding_addall_validate_merge()),
        "F20-nested-pending-residue" => Some(crate::c05::finding_nested_pending_residue()),
        _ => None,
    };
    match r {
        None => format!("{{\"error\": \"unknown finding {}\"}}", id),
        Some((rep, detail)) => format!("{{\"reproduced\": {}, \"detail\": {:?}}}", rep, detail),
    }
}
